(** Correspondence and property oracles for the mcrew service (C16, and the
    mcrew / mdb half of C14): what the generated cases_mcrewseq_*.v,
    cases_mcrewconc_*.v, cases_mcrewroute_*.v, cases_mdbroute_*.v evaluate.

    M functions apply the model definitions the theorems are about
    ([svc_step_m], [feed_m]) to the recorded requests and compare with what
    the Go service answered / held in memory / had stored.  V functions look
    at the Go observations only, through the specifications of
    Spec/MCrewSpec.v. *)
From Coq Require Import FSets.FMapPositive.
From Sheens Require Export Corr.Base Spec.MCrewSpec.

(** ---- equality on the observables ------------------------------------------------ *)

Definition wobs_eqb (a b : wobs) : bool :=
  nb_eqb (wo_from a) (wo_from b) && opt_eqb nb_eqb (wo_to a) (wo_to b)
  && list_eqb json_eqb (wo_emitted a) (wo_emitted b).
Definition mw_eqb (a b : string * wobs) : bool :=
  String.eqb (fst a) (fst b) && wobs_eqb (snd a) (snd b).
Definition resp_eqb (a b : resp) : bool :=
  match a, b with
  | POk, POk | PExists, PExists | PErr, PErr | PSpecErr, PSpecErr | PFault, PFault => true
  | PProcessed e ws, PProcessed e' ws' => Bool.eqb e e' && list_eqb mw_eqb ws ws'
  | PCrew m, PCrew m' => mmap_eqb m m'
  | _, _ => false
  end.
Definition svc_eqb (a b : svc) : bool :=
  mmap_eqb (mem a) (mem b) && mmap_eqb (sto a) (sto b) && Bool.eqb (up a) (up b).
Definition hst_eqb (a b : hst) : bool :=
  mmap_eqb (h_cur a) (h_cur b) && Bool.eqb (h_up a) (h_up b).

(** ---- sequential runs: operations with the store failing in between ------- *)

Record sstep : Type := mk_sstep {
  ss_req : req;
  ss_resp : resp;       (* what the Go call returned *)
  ss_mem : mmap;        (* Service memory after the call (GetCrewOp) *)
  ss_sto : mmap         (* Storage.GetCrew after the call *)
}.
Record seqcase : Type := mk_seqcase { sq_steps : list sstep }.

(** C16's projection of the model: which machines a message is presented to
    is C14's business, so for Process the model is asked what happens when
    the machines the Go service walked are walked ([do_process_to]); a
    GetSpec failure is accepted when some machine's specification is indeed
    unloadable.  Everything else is the model's own step. *)
Definition proj_chk (s : svc) (q : req) (r : resp) : option svc :=
  match q, r with
  | RProcess msg, PProcessed _ ws =>
      let '(s', r') := do_process_to spec_ok_m wk_m (map fst ws) msg s in
      if resp_eqb r' r then Some s' else None
  | RProcess _, PSpecErr =>
      if existsb (fun e : string * mrec => negb (spec_ok_m (r_spec (snd e)))) (mem s)
      then Some s else None
  | _, _ =>
      let '(s', r') := svc_step_m q s in if resp_eqb r' r then Some s' else None
  end.

Fixpoint seq_agrees (s : svc) (steps : list sstep) : bool :=
  match steps with
  | [] => true
  | st :: r =>
      match proj_chk s (ss_req st) (ss_resp st) with
      | Some s' => mmap_eqb (mem s') (ss_mem st) && mmap_eqb (sto s') (ss_sto st) && seq_agrees s' r
      | None => false
      end
  end.

Definition c16_seq_mismatches (cases : list seqcase) : list nat :=
  bad_indexes (fun c => negb (seq_agrees svc0 (sq_steps c))) 0 cases.

(** the property on the Go observations: after every operation memory equals
    the store; an operation that failed left both as they were; the
    responses are those of a sequential crew ([hist_step]) and the crew they
    imply is the one in memory *)
Fixpoint seq_ok (h : hst) (mem0 : mmap) (steps : list sstep) : bool :=
  match steps with
  | [] => true
  | st :: r =>
      mmap_eqb (ss_mem st) (ss_sto st)
      && (if must_not_change (ss_resp st) then mmap_eqb (ss_mem st) mem0 else true)
      && match hist_step h (ss_req st) (ss_resp st) with
         | Some h' => mmap_eqb (h_cur h') (ss_mem st) && seq_ok h' (ss_mem st) r
         | None => false
         end
  end.

Definition c16_seq_violations (cases : list seqcase) : list nat :=
  bad_indexes (fun c => negb (seq_ok hst0 [] (sq_steps c))) 0 cases.

(** sequences in which a write failed *)
Definition c16_seq_nontrivial (cases : list seqcase) : nat :=
  count_true (fun c => existsb (fun st => match ss_resp st with
                                          | PErr | PProcessed true _ => true
                                          | _ => false
                                          end) (sq_steps c)) cases.

(** ---- concurrent histories ------------------------------------------------------ *)

Record hop : Type := mk_hop {
  h_client : nat;
  h_call : nat;       (* logical time of the invocation *)
  h_ret : nat;        (* logical time of the response *)
  h_req : req;
  h_resp : resp
}.
Record conccase : Type := mk_conccase {
  cc_ops : list hop;
  cc_mem : mmap;      (* memory after all clients finished *)
  cc_sto : mmap;      (* store after all clients finished *)
  cc_quiet : bool     (* the goroutines of the service came to rest *)
}.

Inductive lres : Type := LYes | LNo | LFuel.

Fixpoint remove_nth {A : Type} (i : nat) (l : list A) : list A :=
  match l, i with
  | [], _ => []
  | _ :: r, O => r
  | x :: r, S j => x :: remove_nth j r
  end.

(** Search for a linearisation (Wing and Gong): a total order of the
    operations that respects real time (an operation that returned before
    another was called comes first) in which every response is accepted by
    the sequential automaton [chk].  An accepted operation whose response
    says that it changed nothing in whatever state it ran ([pure_resp]: a
    read, a failed write, an empty batch) is committed without backtracking:
    it can always be moved to the front of a linearisation.  [fuel] bounds
    the number of visited nodes. *)
Definition pure_resp (r : resp) : bool :=
  match r with
  | PErr | PSpecErr | PExists | PCrew _ | PProcessed true _ => true
  | PProcessed false ws => is_nil (changes ws)
  | _ => false
  end.

Section Lin.
  Variable St : Type.
  Variable chk : St -> req -> resp -> option St.
  Variable same : St -> St -> bool.
  Variable final_ok : St -> bool.

  (** configurations (set of linearised operations as a bit mask, state)
      from which the search has failed *)
  Definition cache := PositiveMap.t (list St).

  Definition known_failure (c : cache) (mask : positive) (s : St) : bool :=
    match PositiveMap.find mask c with
    | Some l => existsb (same s) l
    | None => false
    end.
  Definition remember (c : cache) (mask : positive) (s : St) : cache :=
    PositiveMap.add mask (s :: match PositiveMap.find mask c with Some l => l | None => [] end) c.

  Definition minimal (pending : list (positive * hop)) (h : hop) : bool :=
    forallb (fun p : positive * hop => negb (Nat.ltb (h_ret (snd p)) (h_call h))) pending.

  Fixpoint lin (depth : nat) (fc : nat * cache) (mask : positive) (s : St)
           (pending : list (positive * hop)) {struct depth} : lres * (nat * cache) :=
    match pending with
    | [] => (if final_ok s then LYes else LNo, fc)
    | _ :: _ =>
        if known_failure (snd fc) mask s then (LNo, fc) else
        match depth with
        | O => (LFuel, fc)
        | S d =>
            let r :=
              (fix try (cands : list (positive * hop)) (i : nat) (fc : nat * cache) {struct cands}
                 : lres * (nat * cache) :=
                 match cands with
                 | [] => (LNo, fc)
                 | (bit, h) :: rest =>
                     if minimal pending h then
                       match fst fc with
                       | O => (LFuel, fc)
                       | S f =>
                           match chk s (h_req h) (h_resp h) with
                           | Some s' =>
                               match lin d (f, snd fc) (Pos.lor mask bit) s' (remove_nth i pending) with
                               | (LNo, fc') =>
                                   if pure_resp (h_resp h) then (LNo, fc') else try rest (S i) fc'
                               | other => other
                               end
                           | None => try rest (S i) (f, snd fc)
                           end
                       end
                     else try rest (S i) fc
                 end) pending O fc in
            match r with
            | (LNo, fc') => (LNo, (fst fc', remember (snd fc') mask s))
            | other => other
            end
        end
    end.

  Fixpoint number (bit : positive) (ops : list hop) : list (positive * hop) :=
    match ops with
    | [] => []
    | h :: r => (bit, h) :: number (Pos.shiftl bit 1) r
    end.

  (** bit 0 of the mask is always set (masks are [positive]); operation k has bit k+1 *)
  Definition linearisable (fuel : nat) (s0 : St) (ops : list hop) : lres :=
    fst (lin (S (List.length ops)) (fuel, PositiveMap.empty (list St)) 1%positive s0
             (number 2%positive ops)).
End Lin.

Definition lin_fuel : nat := 400 * 500.

(** the model ([proj_chk]) as the sequential specification *)

Definition conc_agrees (c : conccase) : bool :=
  match linearisable svc proj_chk svc_eqb
          (fun s => mmap_eqb (mem s) (cc_mem c) && mmap_eqb (sto s) (cc_sto c))
          lin_fuel svc0 (cc_ops c) with
  | LYes => true
  | _ => false
  end.

Definition c16_conc_mismatches (cases : list conccase) : list nat :=
  bad_indexes (fun c => negb (conc_agrees c)) 0 cases.

(** the property on the Go observations: at rest memory equals the store, and
    the history is that of some sequential order of the requests
    ([hist_step]: no lost update, failed operations changed nothing) whose
    final crew is the one in memory *)
Definition conc_ok (c : conccase) : bool :=
  cc_quiet c
  && mmap_eqb (cc_mem c) (cc_sto c)
  && match linearisable hst hist_step hst_eqb (fun h => mmap_eqb (h_cur h) (cc_mem c))
             lin_fuel hst0 (cc_ops c) with
     | LYes => true
     | _ => false
     end.

Definition c16_conc_violations (cases : list conccase) : list nat :=
  bad_indexes (fun c => negb (conc_ok c)) 0 cases.

Definition c16_conc_nontrivial (cases : list conccase) : nat :=
  count_true (fun c => existsb (fun h => existsb (fun p => Nat.ltb (h_call h) (h_call p)
                                                          && Nat.ltb (h_call p) (h_ret h))
                                                 (cc_ops c)) (cc_ops c)) cases.

(** ---- routing and feedback (C14, mcrew and mdb) ----------------------------------- *)

Record routecase : Type := mk_routecase {
  rc_mdb : bool;                          (* cmd/mdb's Host instead of cmd/mcrew's Service *)
  rc_ids : list string;                   (* the crew: recorder machines (spec rec), sorted *)
  rc_broken : list string;                (* members of rc_ids whose specification cannot be loaded (spec "ghost") *)
  rc_root : json;                         (* the submitted message *)
  rc_logs : list (string * list json);    (* per machine: ids of the messages it received *)
  rc_walked : list string;                (* keys of the map Process returned for the root *)
  rc_processed : list json;               (* ids of all messages Process was called with *)
  rc_reported : list json;                (* ids of all messages reported as emitted *)
  rc_quiet : bool;
  rc_down : bool                          (* the store was down throughout: no state advances (neither do the logs kept
                                             in the states), routing, reports and feedback go on all the same *)
}.

(** the model runs with the reserved names read from the source of the tree
    under test (Gen/Names.v); the oracle counts with the documented ones *)
Definition rc_services (c : routecase) : list string := if rc_mdb c then mdb_services else mcrew_services.
Definition rc_documented (c : routecase) : list string :=
  if rc_mdb c then documented_mdb_services else documented_services.

Definition crew_of (ids : list string) : mmap :=
  fold_left (fun acc id => mset id (mk_mrec "rec" "start" []) acc) ids [].
Definition crew_with (ids broken : list string) : mmap :=
  fold_left (fun acc id => mset id (mk_mrec (if existsb (String.eqb id) broken then "ghost" else "rec") "start" []) acc)
            ids [].

Fixpoint feed_fifo (services : list string) (fuel : nat) (f : fed) : fed :=
  match fuel with
  | O => f
  | S n =>
      match fd_pending f with
      | [] => f
      | _ :: _ => feed_fifo services n (feed_one spec_ok_m wk_m services 0 f)
      end
  end.

Definition log_of (r : mrec) : list json :=
  match lookup "log" (r_bs r) with Some (JArr l) => l | _ => [] end.

Definition logs_agree (m : mmap) (logs : list (string * list json)) : bool :=
  list_eqb (fun (a b : string * list json) =>
              String.eqb (fst a) (fst b) && perm_eqb json_eqb (snd a) (snd b))
           (map (fun e : string * mrec => (fst e, log_of (snd e))) m) logs.

Definition route_agrees (c : routecase) : bool :=
  let s0 := mk_svc (crew_with (rc_ids c) (rc_broken c)) (crew_with (rc_ids c) (rc_broken c)) (negb (rc_down c)) in
  let f := feed_fifo (rc_services c) (200 * 100) (submit (rc_root c) s0) in
  is_nil (fd_pending f)
  && logs_agree (mem (fd_svc f)) (rc_logs c)
  && list_eqb String.eqb (match fd_log f with (_, w) :: _ => w | [] => [] end) (rc_walked c)
  && perm_eqb json_eqb (map (fun e => msg_id (fst e)) (fd_log f)) (rc_processed c)
  && perm_eqb json_eqb (map msg_id (fd_reported f)) (rc_reported c).

Definition c14m_mismatches (cases : list routecase) : list nat :=
  bad_indexes (fun c => negb (route_agrees c)) 0 cases.

(** the counting statement on the Go observations under an addressing rule *)
Definition route_ok_under (who : json -> list string) (c : routecase) : bool :=
  let '(deliveries, processed) := expect who 64 1 (rc_root c) in
  rc_quiet c
  && list_eqb String.eqb (map fst (rc_logs c)) (rc_ids c)
  && (if rc_down c
      then forallb (fun l : string * list json => is_nil (snd l)) (rc_logs c)
      else forallb (fun (l : string * list json) =>
                      perm_eqb json_eqb (snd l)
                               (map fst (filter (fun d : json * string => String.eqb (snd d) (fst l)) deliveries)))
                   (rc_logs c))
  && list_eqb String.eqb (rc_walked c) (who (rc_root c))
  && perm_eqb json_eqb (rc_processed c) processed
  && perm_eqb json_eqb (rc_reported c) (tl processed).

(** a crew with a machine whose specification cannot be loaded is outside
    the counting statement (a Process call that meets such a machine fails as
    a whole); those cases are judged by the comparison with the model only *)
Definition route_ok (c : routecase) : bool :=
  if all_recordable 64 (rc_root c) && is_nil (rc_broken c)
  then route_ok_under (addressed (rc_documented c) (rc_ids c)) c
  else true.

Definition c14m_violations (cases : list routecase) : list nat :=
  bad_indexes (fun c => negb (route_ok c)) 0 cases.

(** D12 (known finding): cmd/mcrew's and cmd/mdb's Route send a message whose
    "to" is not a string to every machine and treat "*" as an ordinary id.
    The signature recognises exactly that: the case violates the counting
    statement, some message of the tree has such a target, and the
    observations are exactly what the counting statement requires when
    [addressed] is replaced by that rule (so any other deviation is still
    reported). *)
Fixpoint has_d12_target (fuel : nat) (msg : json) : bool :=
  match fuel with
  | O => false
  | S f =>
      d12_target msg || existsb (has_d12_target f) (msg_fwd msg)
  end.

Definition K_mcrew_to_not_a_machine_id (cases : list routecase) : list nat :=
  bad_indexes (fun c => negb (route_ok c) && has_d12_target 64 (rc_root c)
                        && route_ok_under (mcrew_rule (rc_documented c) (rc_ids c)) c) 0 cases.

Definition c14m_nontrivial (cases : list routecase) : nat :=
  count_true (fun c => negb (is_nil (rc_reported c)) && existsb (fun l => negb (is_nil (snd l))) (rc_logs c))
             cases.
