(** Correspondence and property oracles for the matcher (C01, C02, C03):
    what the generated cases_match_*.v files evaluate. *)
From Sheens Require Export Corr.Base Spec.Contain Spec.Embed Spec.EmbedOpt.

Inductive gores : Type :=
| GoOk (r : list bindings)
| GoErr
| GoPanic.

Record mcase : Type := mk_mcase {
  mc_p : json;
  mc_f : json;
  mc_bs : bindings;
  mc_planted : option bindings;
  mc_go : gores;
  mc_reps_agree : bool;     (* shuffled constructions / repetitions gave one multiset and class *)
  mc_intact : bool;         (* deep snapshots of the arguments unchanged *)
  mc_independent : bool     (* results are distinct maps; mutating one changes nothing else *)
}.

Definition model_of (c : mcase) : res (list bindings) := Match (mc_p c) (mc_f c) (mc_bs c).

(** model and implementation agree on the projected observables: outcome
    class and the multiset of binding sets *)
Definition mc_agrees (c : mcase) : bool :=
  match model_of c, mc_go c with
  | Ok r, GoOk r' => perm_eqb bindings_eqb r r'
  | Err, GoErr => true
  | _, _ => false
  end.

Definition mc_mismatches (cases : list mcase) : list nat :=
  bad_indexes (fun c => negb (mc_agrees c)) 0 cases.

(** C01's quantifier: no string of the message or of the bound values is a
    variable; objects have unique keys *)
Definition c01_pre (c : mcase) : bool :=
  var_free (mc_f c) && var_free_bs (mc_bs c) && wf_json (mc_f c) && wf_json (mc_p c)
  && wf_bs (mc_bs c).

Definition c01_case_ok (c : mcase) : bool :=
  if c01_pre c then
    match mc_go c with
    | GoOk rs => forallb (fun bs' => sorted_keys bs' && c01_ok (mc_p c) (mc_f c) (mc_bs c) bs') rs
    | GoErr => true
    | GoPanic => true
    end
  else true.

Definition c01_violations (cases : list mcase) : list nat :=
  bad_indexes (fun c => negb (c01_case_ok c)) 0 cases.

Definition c01_nontrivial (cases : list mcase) : nat :=
  count_true (fun c => c01_pre c &&
                       match mc_go c with
                       | GoOk (_ :: _) => match pvars (mc_p c) with [] => false | _ => true end
                       | _ => false
                       end) cases.

(** * C02 *)
Definition c02_applicable (c : mcase) : bool :=
  match mc_planted c, mc_bs c with
  | Some sg, [] => c02_pre (mc_p c) (mc_f c) sg && embeds sg (mc_p c) (mc_f c)
  | _, _ => false
  end.

Definition c02_linear_applicable (c : mcase) : bool :=
  match mc_bs c with
  | [] => supported (mc_p c) && all_plain (mc_p c) && linear (mc_p c) && wf_json (mc_p c)
          && wf_json (mc_f c) && var_free (mc_f c)
          && arrays_are_sets (mc_p c) && arrays_are_sets (mc_f c)
  | _ => false
  end.

(** the planted assignment leaves an optional variable out (or assigns it)
    as Spec/EmbedOpt.v allows: C02_match_complete_optional applies *)
Definition c02_opt_applicable (c : mcase) : bool :=
  match mc_planted c, mc_bs c with
  | Some sg, [] => c02_pre_opt (mc_p c) (mc_f c) sg && embeds_opt sg (mc_p c) (mc_f c)
  | _, _ => false
  end.

Definition c02_case_ok (c : mcase) : bool :=
  (if c02_opt_applicable c then
     match mc_planted c, mc_go c with
     | Some sg, GoOk rs => c02_found sg rs
     | _, _ => false
     end
   else true)
  &&
  (if c02_applicable c then
     match mc_planted c, mc_go c with
     | Some sg, GoOk rs => c02_found sg rs
     | _, _ => false            (* an error or a crash where a match must be found *)
     end
   else true)
  &&
  (if c02_linear_applicable c then
     match mc_go c with
     | GoOk rs => forallb (c02_result_is_embedding (mc_p c) (mc_f c)) rs
     | _ => false               (* the supported fragment never errs *)
     end
   else true).

Definition c02_violations (cases : list mcase) : list nat :=
  bad_indexes (fun c => negb (c02_case_ok c)) 0 cases.

Definition c02_nontrivial (cases : list mcase) : nat :=
  count_true (fun c => c02_applicable c &&
                       match mc_planted c with Some (_ :: _) => true | _ => false end) cases.
Definition c02_opt_count (cases : list mcase) : nat :=
  count_true (fun c => c02_opt_applicable c && existsb is_optional (pvars (mc_p c))) cases.
Definition c02_linear_count (cases : list mcase) : nat :=
  count_true (fun c => c02_linear_applicable c &&
                       match mc_go c with GoOk (_ :: _) => true | _ => false end) cases.

(** * C03: observations made on the implementation for each case *)
Definition c03_case_ok (c : mcase) : bool :=
  mc_reps_agree c && mc_intact c && mc_independent c.

Definition c03_violations (cases : list mcase) : list nat :=
  bad_indexes (fun c => negb (c03_case_ok c)) 0 cases.

(** * C02 on the exhaustive small scope: every assignment of message parts
    (sub-terms, property names) to the pattern's variables that meets the
    side conditions and embeds the pattern is among the returned sets *)
Fixpoint subterms (j : json) : list json :=
  j :: match j with
       | JArr l => flat_map subterms l
       | JObj kvs => flat_map (fun kv : string * json => JStr (fst kv) :: subterms (snd kv)) kvs
       | _ => []
       end.

Fixpoint dedup_strings (l : list string) : list string :=
  match l with
  | [] => []
  | s :: r => if existsb (String.eqb s) r then dedup_strings r else s :: dedup_strings r
  end.

Fixpoint assignments (vars : list string) (cands : list json) : list bindings :=
  match vars with
  | [] => [[]]
  | v :: r => flat_map (fun sg : bindings => map (fun c => bset v c sg) cands) (assignments r cands)
  end.

Definition c02_enum_case_ok (c : mcase) : bool :=
  match mc_bs c with
  | [] =>
      let p := mc_p c in
      let f := mc_f c in
      let vars := dedup_strings (filter (fun v => negb (is_anon v)) (pvars p)) in
      forallb (fun sg => negb (c02_pre p f sg && embeds sg p f) ||
                         match mc_go c with
                         | GoOk rs => c02_found sg rs
                         | _ => false
                         end)
              (assignments vars (subterms f))
      && c02_case_ok c
  | _ => true
  end.

Definition c02_enum_violations (cases : list mcase) : list nat :=
  bad_indexes (fun c => negb (c02_enum_case_ok c)) 0 cases.
Definition c02_enum_nontrivial (cases : list mcase) : nat :=
  count_true (fun c => match mc_go c with GoOk (_ :: _) => negb (match pvars (mc_p c) with [] => true | _ => false end) | _ => false end) cases.
