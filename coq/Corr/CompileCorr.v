(** Correspondence and property oracle for C13 (representation independence
    of a specification, idempotence of Compile): what the generated
    cases_compile_*.v and cases_jsontext_*.v files evaluate.

    A [ccase] is one abstract specification (patterns inline), the
    representations ("variants") of it that the harness loaded through the
    real decoders, what Spec.Compile said for each of them (first
    compilation, compilations again, compilation after a JSON and a YAML
    serialisation round trip), the walks of the first variant that compiled
    and, for every other walk, whether it was equal to that reference.

    [M]: the model ([compile] of Model/Compile.v applied to each decoded
    variant, [doc_walk] of the compiled value) against what Go returned.
    [V]: the property itself, decided on what Go returned. *)
From Sheens Require Export Corr.StepCorr Model.Compile.

(** * Compile outcomes as the harness classifies them (never by message
    text, except the exported sentinel InterpreterNotFound) *)
Inductive go_cclass : Type := GcOk | GcInterp | GcOther | GcPanic.

Definition gc_eqb (a b : go_cclass) : bool :=
  match a, b with
  | GcOk, GcOk | GcInterp, GcInterp | GcOther, GcOther | GcPanic, GcPanic => true
  | _, _ => false
  end.
Definition gc_is_ok (a : go_cclass) : bool := gc_eqb a GcOk.
Definition class_of (e : cerr) : go_cclass :=
  match e with CInterp => GcInterp | _ => GcOther end.

Record cvariant : Type := mk_cvariant {
  cv_name : string;              (* the representation, for replay files *)
  cv_syntax : string;            (* PatternSyntax of the decoded Spec value *)
  cv_patterns : list json;       (* its branch patterns (nodes by name, branches in order); Go strings are JStr *)
  cv_known : list string;        (* the interpreter names the loading host knows *)
  cv_force : bool;
  cv_skeleton : bool;            (* the decoder kept everything else of the document *)
  cv_class : go_cclass;          (* Compile *)
  cv_again : list go_cclass;     (* Compile again (force=false), and again (force=true) *)
  cv_reload : list go_cclass;    (* Compile of the json / yaml serialisation of the compiled value *)
  cv_agree : list bool           (* every walk made with this variant equals the reference walk *)
}.

Record crun : Type := mk_crun {
  cr_st : state;
  cr_msgs : list json;
  cr_limit : nat;
  cr_go : go_walk                (* the reference: first variant that compiled *)
}.

Record ccase : Type := mk_ccase {
  cc_doc : adoc;                 (* the abstract specification: patterns inline, nothing compiled *)
  cc_variants : list cvariant;
  cc_runs : list crun;
  cc_late : bool                 (* a Step on a compiled variant said "not compiled" / "uncompiled action" *)
}.

(** * The decoded variant as a Spec value: the abstract document with the
    decoded patterns and syntax put in *)
Definition fill_branch (ob : option dbranch) (ps : list json) : option dbranch * list json :=
  match ob with
  | None => (None, ps)
  | Some b =>
      match ps with
      | p :: r => (Some (mk_dbranch p (db_guard b) (db_guard_src b) (db_target b)), r)
      | [] => (Some b, [])
      end
  end.
Fixpoint fill_branches (brs : list (option dbranch)) (ps : list json)
  : list (option dbranch) * list json :=
  match brs with
  | [] => ([], ps)
  | ob :: r =>
      let '(ob', ps1) := fill_branch ob ps in
      let '(r', ps2) := fill_branches r ps1 in
      (ob' :: r', ps2)
  end.
Definition fill_node (kn : string * option dnode) (ps : list json)
  : (string * option dnode) * list json :=
  match snd kn with
  | Some n =>
      match dn_branching n with
      | Some bg =>
          let '(brs, ps1) := fill_branches (dg_branches bg) ps in
          ((fst kn, Some (mk_dnode (dn_action n) (dn_source n) (Some (mk_dbranching (dg_type bg) brs)))), ps1)
      | None => (kn, ps)
      end
  | None => (kn, ps)
  end.
Fixpoint fill_nodes (ns : list (string * option dnode)) (ps : list json)
  : list (string * option dnode) * list json :=
  match ns with
  | [] => ([], ps)
  | kn :: r =>
      let '(kn', ps1) := fill_node kn ps in
      let '(r', ps2) := fill_nodes r ps1 in
      (kn' :: r', ps2)
  end.
Definition variant_doc (c : ccase) (v : cvariant) : adoc :=
  with_syntax (cv_syntax v) (set_nodes (cc_doc c) (fst (fill_nodes (ad_nodes (cc_doc c)) (cv_patterns v)))).

Definition model_compile (c : ccase) (v : cvariant) : cres adoc :=
  compile (host_interps (cv_known v)) (cv_force v) (variant_doc c v).

(** Go ranges over the node map in random order: when several nodes are
    defective, which error comes back is not determined.  The errors that
    can come back: the pattern pass, boot and toob are ordered; after them,
    any node's first error. *)
Definition possible_errs (I : interps) (force : bool) (a : adoc) : list cerr :=
  match parse_patterns a with
  | inl e => [e]
  | inr a1 =>
      match compile_opt I force (ad_boot_src a1) (ad_boot a1) with
      | inl e => [e]
      | inr _ =>
          match compile_opt I force (ad_toob_src a1) (ad_toob a1) with
          | inl e => [e]
          | inr _ =>
              let en := if String.eqb (ad_error_node a1) "" then default_error_node else ad_error_node a1 in
              let ns := if has_node en (ad_nodes a1) || ad_no_auto_error a1 then ad_nodes a1
                        else insert_node en (Some empty_node) (ad_nodes a1) in
              flat_map (fun kn => match compile_node I force kn with inl e => [e] | inr _ => [] end) ns
          end
      end
  end.

(** compared: compiled / rejected (which error comes back is a matter of
    message texts and of Go's map order) *)
Definition class_agrees (c : ccase) (v : cvariant) : bool :=
  match model_compile c v with
  | inr _ => gc_is_ok (cv_class v)
  | inl _ => negb (gc_is_ok (cv_class v)) && negb (gc_eqb (cv_class v) GcPanic)
  end.

(** reported, not judged: is the error Go returned one of those the model
    can return for some visiting order of the nodes *)
Definition fine_class_agrees (c : ccase) (v : cvariant) : bool :=
  match model_compile c v with
  | inr _ => gc_is_ok (cv_class v)
  | inl _ =>
      existsb (fun e => gc_eqb (class_of e) (cv_class v))
              (possible_errs (host_interps (cv_known v)) (cv_force v) (variant_doc c v))
  end.

(** the first variant that compiles, in the model *)
Fixpoint first_compiled (c : ccase) (vs : list cvariant) : option adoc :=
  match vs with
  | [] => None
  | v :: r => match model_compile c v with inr a' => Some a' | inl _ => first_compiled c r end
  end.

(** The engine model (Model/Step.v) normalises every error text to one
    token.  Once a walk has bound an ordinary variable to such a text (a
    pattern like {"error":"?w"}), later matches can depend on the actual
    texts, which the model does not have: such a walk is not compared with
    the model (the variants are still compared with each other). *)
Definition err_text_bound (bs : option bindings) : bool :=
  existsb (fun kv : string * json =>
             negb (String.eqb (fst kv) "error") && negb (String.eqb (fst kv) "actionError")
             && json_eqb (snd kv) err_text) (copy_bs bs).
Definition walk_binds_err_text (gw : walked) : bool :=
  existsb (fun sd => match sd_to sd with Some t => err_text_bound (st_bs t) | None => false end)
          (w_strides gw).

Definition run_agrees (a' : adoc) (r : crun) : bool :=
  let '(w, amb) := doc_walk a' (fun _ => false) (cr_limit r) (cr_st r) (cr_msgs r) in
  if amb then true else
  match cr_go r with
  | GWalk gw err =>
      walk_binds_err_text gw ||
      list_eqb stride_eqb (w_strides w) (w_strides gw)
      && list_eqb json_eqb (w_remaining w) (w_remaining gw)
      && stop_eqb (w_stopped w) (w_stopped gw) && negb err
  | _ => false
  end.

Definition compile_agrees (c : ccase) : bool :=
  forallb (class_agrees c) (cc_variants c)
  && match first_compiled c (cc_variants c) with
     | Some a' => forallb (run_agrees a') (cc_runs c)
     | None => match cc_runs c with [] => true | _ => false end
     end.

Definition compile_mismatches (cases : list ccase) : list nat :=
  bad_indexes (fun c => negb (compile_agrees c)) 0 cases.

(** * The property, decided on what Go returned *)

(** rejection that the property demands, read off the document itself *)
Definition known_name (known : list string) (s : asource) : bool := existsb (String.eqb (as_interp s)) known.
Definition src_unknown (known : list string) (s : option asource) : bool :=
  match s with Some so => negb (known_name known so) | None => false end.
Definition branch_unknown_interp (known : list string) (ob : option dbranch) : bool :=
  match ob with Some b => src_unknown known (db_guard_src b) | None => false end.
Definition node_must_reject (known : list string) (kn : string * option dnode) : bool :=
  match snd kn with
  | Some n =>
      src_unknown known (dn_source n)
      || match dn_branching n with
         | Some bg =>
             negb (String.eqb (dg_type bg) "" || String.eqb (dg_type bg) "message"
                   || String.eqb (dg_type bg) "bindings")
             || existsb (branch_unknown_interp known) (dg_branches bg)
         | None => false
         end
  | None => false
  end.
Definition has_pattern (a : adoc) : bool :=
  existsb (fun kn => match snd kn with
                     | Some n => match dn_branching n with
                                 | Some bg => existsb (fun ob => match ob with Some _ => true | None => false end)
                                                      (dg_branches bg)
                                 | None => false
                                 end
                     | None => false
                     end) (ad_nodes a).
Definition syntax_known (s : string) : bool :=
  String.eqb s "none" || String.eqb s "" || String.eqb s "json".

(** nothing compiled beforehand, so every source must be compiled *)
Definition must_reject (c : ccase) (v : cvariant) : bool :=
  let d := variant_doc c v in
  existsb (node_must_reject (cv_known v)) (ad_nodes d)
  || src_unknown (cv_known v) (ad_boot_src d) || src_unknown (cv_known v) (ad_toob_src d)
  || (negb (syntax_known (ad_syntax d)) && has_pattern d).

Definition all_true (l : list bool) : bool := forallb (fun b => b) l.

(** is any walk of this case ambiguous (a guard saw several candidates: the
    choice among them is documented as arbitrary) *)
Definition case_ambiguous (c : ccase) : bool :=
  match first_compiled c (cc_variants c) with
  | Some a' => existsb (fun r => snd (doc_walk a' (fun _ => false) (cr_limit r) (cr_st r) (cr_msgs r))) (cc_runs c)
  | None => false
  end.

Definition c13_ok (c : ccase) : bool :=
  let vs := cc_variants c in
  (* the decoders delivered the same document *)
  forallb cv_skeleton vs
  (* every representation compiles, or none does - for one host, i.e. one set of known interpreters *)
  && forallb (fun v => forallb (fun w => negb (list_eqb String.eqb (cv_known v) (cv_known w))
                                         || Bool.eqb (gc_is_ok (cv_class v)) (gc_is_ok (cv_class w))) vs) vs
  (* no crash *)
  && forallb (fun v => negb (gc_eqb (cv_class v) GcPanic)) vs
  (* compiling again, and compiling what was serialised, succeeds *)
  && forallb (fun v => negb (gc_is_ok (cv_class v))
                       || (forallb gc_is_ok (cv_again v) && forallb gc_is_ok (cv_reload v))) vs
  (* all the machines behave identically on every message sequence *)
  && (forallb (fun v => all_true (cv_agree v)) vs || case_ambiguous c)
  (* unknown interpreters, syntaxes, branching types: rejected at compile time, nothing at run time *)
  && forallb (fun v => negb (must_reject c v) || negb (gc_is_ok (cv_class v))) vs
  && negb (cc_late c).

Definition c13_violations (cases : list ccase) : list nat :=
  bad_indexes (fun c => negb (c13_ok c)) 0 cases.

(** non-trivial: at least two representations compiled, one of them with a
    pattern written as text, and a reference walk moved *)
Definition walk_moved (g : go_walk) : bool :=
  match g with
  | GWalk gw _ => existsb (fun sd => match sd_to sd with Some _ => true | None => false end) (w_strides gw)
  | _ => false
  end.
Definition c13_nontrivial (cases : list ccase) : nat :=
  count_true (fun c =>
                Nat.leb 2 (count_true (fun v => gc_is_ok (cv_class v)) (cc_variants c))
                && existsb (fun v => gc_is_ok (cv_class v) && String.eqb (cv_syntax v) "json"
                                     && existsb (fun p => match p with JStr _ => true | _ => false end) (cv_patterns v))
                           (cc_variants c)
                && existsb (fun r => walk_moved (cr_go r)) (cc_runs c)) cases.
Definition c13_fine_class_disagreements (cases : list ccase) : nat :=
  count_true (fun c => negb (forallb (fine_class_agrees c) (cc_variants c))) cases.
Definition c13_rejections (cases : list ccase) : nat :=
  count_true (fun c => existsb (must_reject c) (cc_variants c)) cases.

(** * encoding/json on the text fragment (Model/JsonText.v) *)
Record jtcase : Type := mk_jtcase {
  jt_text : string;              (* a text handed to json.Unmarshal *)
  jt_go : option json;           (* what it returned (None = an error) *)
  jt_val : json;                 (* a value handed to json.Marshal *)
  jt_go_text : string;           (* the text it returned *)
  jt_go_back : bool              (* Unmarshal of that text gave the value back *)
}.
Definition jt_agrees (c : jtcase) : bool :=
  opt_eqb json_eqb (option_map canonicalize (parse (jt_text c))) (jt_go c)
  && String.eqb (print (canonicalize (jt_val c))) (jt_go_text c).
Definition jsontext_mismatches (cases : list jtcase) : list nat :=
  bad_indexes (fun c => negb (jt_agrees c)) 0 cases.
(** the property needs a pattern text to denote its pattern *)
Definition jsontext_violations (cases : list jtcase) : list nat :=
  bad_indexes (fun c => negb (jt_go_back c)) 0 cases.
Definition jsontext_nontrivial (cases : list jtcase) : nat :=
  count_true (fun c => match jt_go c with Some (JArr _) | Some (JObj _) => true | _ => false end) cases.
