(** Correspondence and property oracle for tools.Analyze / tools.Dot /
    tools.Mermaid (C20): what the generated cases_tools_*.v files evaluate.

    A case is the node graph read off a real *core.Spec (after Compile, or
    uncompiled as spectool passes it) and what the three functions did on
    it: the analysis fields; the node and edge statements parsed back out
    of the Graphviz and Mermaid texts, or panic / error / text that does not
    parse.

    [c20_mismatches]: the model of Model/Tools.v (the definitions the
    theorems of Properties/C20.v are about) evaluated on the same graph
    disagrees with the implementation.  [c20_violations]: what the
    implementation returned is not what Spec/Graph.v says about the graph.
    Lists are compared as multisets (no order is part of the property). *)
From Sheens Require Export Corr.Base Spec.Graph.

Inductive go_an : Type :=
| GAn (a : analysis)
| GAnPanic
| GAnError.

Inductive go_render : Type :=
| GItems (l : list item)
| GPanic
| GError
| GGarbled.      (* a statement that does not parse, an unknown or twice declared id *)

(** the Mermaid text is handed over as its statements (ids unresolved);
    [mer_items] of Spec/Graph.v - the function the theorems are about - reads
    them *)
Inductive go_mermaid : Type :=
| GMer (l : list mstmt)
| GMPanic
| GMError
| GMGarbled.

Definition mer_go_items (r : go_mermaid) : go_render :=
  match r with
  | GMer l => match mer_items l with Some items => GItems items | None => GGarbled end
  | GMPanic => GPanic
  | GMError => GError
  | GMGarbled => GGarbled
  end.

Record tcase : Type := mk_tcase {
  tc_spec : gspec;
  tc_an : go_an;
  tc_dot : go_render;
  tc_mer : go_mermaid
}.

Definition strs_eqb (a b : list string) : bool := perm_eqb String.eqb a b.
Definition pair_eqb (a b : string * string) : bool :=
  String.eqb (fst a) (fst b) && String.eqb (snd a) (snd b).
Definition item_eqb (a b : item) : bool :=
  match a, b with
  | NodeItem x, NodeItem y => String.eqb x y
  | EdgeItem a1 a2, EdgeItem b1 b2 => String.eqb a1 b1 && String.eqb a2 b2
  | _, _ => false
  end.
Definition items_eqb (a b : list item) : bool := perm_eqb item_eqb a b.

(** * model against implementation *)
Definition an_agrees (m a : analysis) : bool :=
  Nat.eqb (a_nodecount m) (a_nodecount a) && Nat.eqb (a_branches m) (a_branches a)
  && Nat.eqb (a_actions m) (a_actions a) && Nat.eqb (a_guards m) (a_guards a)
  && strs_eqb (a_terminal m) (a_terminal a) && strs_eqb (a_orphans m) (a_orphans a)
  && strs_eqb (a_empty m) (a_empty a) && strs_eqb (a_missing m) (a_missing a)
  && strs_eqb (a_tvars m) (a_tvars a) && strs_eqb (a_interpreters m) (a_interpreters a).

Definition model_an_agrees (c : tcase) : bool :=
  match tc_an c with
  | GAn a => an_agrees (analyze (tc_spec c)) a
  | _ => false                       (* the model has no panic and no error *)
  end.

Definition render_agrees (m : outcome (option (list item))) (g : go_render) : bool :=
  match m, g with
  | Done (Some items), GItems l => items_eqb items l
  | Panic, GPanic => true
  | _, _ => false
  end.

Definition model_dot (g : gspec) : outcome (option (list item)) :=
  match dot g with Done l => Done (Some (dot_items l)) | Panic => Panic end.
Definition model_mermaid (g : gspec) : outcome (option (list item)) :=
  match mermaid g with Done l => Done (mer_items l) | Panic => Panic end.

Definition c20_agrees (c : tcase) : bool :=
  model_an_agrees c
  && render_agrees (model_dot (tc_spec c)) (tc_dot c)
  && render_agrees (model_mermaid (tc_spec c)) (mer_go_items (tc_mer c)).

Definition c20_mismatches (cases : list tcase) : list nat :=
  bad_indexes (fun c => negb (c20_agrees c)) 0 cases.

(** * the property, decided on what the implementation returned *)
Definition an_ok (g : gspec) (r : go_an) : bool :=
  match r with
  | GAn a =>
      Nat.eqb (a_nodecount a) (g_nodecount g) && Nat.eqb (a_branches a) (g_branches g)
      && Nat.eqb (a_actions a) (g_actions g) && Nat.eqb (a_guards a) (g_guards g)
      && strs_eqb (a_terminal a) (g_terminal g) && strs_eqb (a_orphans a) (g_orphans g)
      && strs_eqb (a_empty a) (g_empty g) && strs_eqb (a_missing a) (g_missing g)
      && strs_eqb (a_tvars a) (g_tvars g) && strs_eqb (a_interpreters a) (g_interpreters g)
  | _ => false
  end.

Definition render_ok (g : gspec) (r : go_render) : bool :=
  match r with
  | GItems l =>
      strs_eqb (item_nodes l) (g_render_nodes g)
      && perm_eqb pair_eqb (item_edges l) (g_edges g)
  | _ => false
  end.

Definition c20_ok (c : tcase) : bool :=
  an_ok (tc_spec c) (tc_an c) && render_ok (tc_spec c) (tc_dot c)
  && render_ok (tc_spec c) (mer_go_items (tc_mer c)).

Definition c20_violations (cases : list tcase) : list nat :=
  bad_indexes (fun c => negb (c20_ok c)) 0 cases.

(** finer views, for the replay files and the evidence *)
Definition c20_an_violations (cases : list tcase) : list nat :=
  bad_indexes (fun c => negb (an_ok (tc_spec c) (tc_an c))) 0 cases.
Definition c20_dot_violations (cases : list tcase) : list nat :=
  bad_indexes (fun c => negb (render_ok (tc_spec c) (tc_dot c))) 0 cases.
Definition c20_mer_violations (cases : list tcase) : list nat :=
  bad_indexes (fun c => negb (render_ok (tc_spec c) (mer_go_items (tc_mer c)))) 0 cases.

(** a case is non-trivial when the graph has something the bundled examples
    lack: a target that is not a node (missing, empty or a variable), a
    native action, a null node, or an unreachable node besides "start" *)
Definition c20_nontrivial_case (c : tcase) : bool :=
  let g := tc_spec c in
  negb (is_nil (g_placeholders g))
  || existsb (fun p => match snd p with
                       | None => true
                       | Some n => n_action n && negb (is_some (n_source n))
                       end) g
  || existsb (fun x => negb (String.eqb x start_name)) (g_orphans g).
Definition c20_nontrivial (cases : list tcase) : nat := count_true c20_nontrivial_case cases.
