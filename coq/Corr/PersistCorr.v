(** Correspondence and oracle for C09 (component "persist"): a history
    processed message by message, in memory versus with the state written out
    as JSON and read back at every boundary. *)
From Sheens Require Export Corr.StepCorr.

Record pcase : Type := mk_pcase {
  pc_spec : aspec;
  pc_st : state;
  pc_msgs : list json;
  pc_go_final : option state;   (* where the in-memory run ended *)
  pc_agree : bool;              (* every run that round-trips the state agrees with the in-memory run, step by step *)
  pc_canon_types : bool;        (* every value of every reached state has a canonical Go type *)
  pc_ok : bool                  (* the in-memory run returned normally *)
}.

(** the model's run: one walk per message (limit 10), each from the state the previous one reached *)
Fixpoint model_history (sp : aspec) (st : state) (msgs : list json) (amb : bool) : state * bool :=
  match msgs with
  | [] => (st, amb)
  | m :: r =>
      let '(w, a) := awalk sp (fun _ => false) 10 st [m] in
      let st' := final_state st (w_strides w) in
      model_history sp st' r (amb || a)
  end.

Definition pc_model (c : pcase) : state * bool := model_history (pc_spec c) (pc_st c) (pc_msgs c) false.

(** bindings compared up to nil = empty (a state that never moved keeps the given nil map) *)
Definition state_eqb_nil (a b : state) : bool :=
  String.eqb (st_node a) (st_node b) && bindings_eqb (copy_bs (st_bs a)) (copy_bs (st_bs b)).

Definition c09_mismatches (cases : list pcase) : list nat :=
  bad_indexes (fun c => let '(fin, amb) := pc_model c in
                        negb amb && pc_ok c &&
                        match pc_go_final c with
                        | Some g => negb (state_eqb_nil fin g)
                        | None => false
                        end) 0 cases.

(** the property on the implementation's behaviour: persisting is unobservable
    and states hold canonical values only (deterministic histories) *)
Definition c09_violations (cases : list pcase) : list nat :=
  bad_indexes (fun c => let '(_, amb) := pc_model c in
                        negb amb && (negb (pc_agree c) || negb (pc_canon_types c) || negb (pc_ok c))) 0 cases.

Definition c09_nontrivial (cases : list pcase) : nat :=
  count_true (fun c => let '(fin, amb) := pc_model c in
                       negb amb && negb (String.eqb (st_node fin) (st_node (pc_st c)))) cases.
