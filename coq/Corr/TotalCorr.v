(** Oracle for the component "total" (C07): specification documents and
    free-form scripts have no Gallina counterpart; a case records whether the
    implementation returned normally (no panic, no hang) and whether a failing
    action was surfaced as an error state carrying the error. *)
From Sheens Require Export Corr.Base.

Record tcase : Type := mk_tcase { tc_returned : bool; tc_surfaced : bool }.

Definition total_violations (cases : list tcase) : list nat :=
  bad_indexes (fun c => negb (tc_returned c) || negb (tc_surfaced c)) 0 cases.
Definition total_no_mismatches (cases : list tcase) : list nat := [].
