(** Correspondence and oracle for the timers (C17): what the generated
    cases_timers_*.v files evaluate.

    A case is the totally ordered log of what one scenario run let an observer
    see of a Go Timers: the requests with their results, the hand-over of each
    timer message to the handler, the ids reported as pending after every
    request, restarts, each preceded by the time at which it began.

    - [M]: the log is not a (weak) trace of the model of the implementation
      ([Model.Timers.cstep], the definition the theorems are about): no
      choice of the internal goroutine steps explains it.
    - [V]: the log is not a (weak) trace of the abstract timer service
      ([Spec.TimerSpec.astep], written from the property text), or a message
      was handed over before [request time + delay], or a due, uncancelled
      timer had not fired when the scenario ended (after the grace period the
      harness waited), or the scenario hung, or the race detector reported.

    Both are decided by a subset construction over the same step functions. *)
From Coq Require Import ZArith List Bool Arith Lia.
From Sheens Require Export Model.Timers Corr.Base.
Import ListNotations.
Local Open Scope Z_scope.

Section Accept.
  Variables (St Lab : Type).
  Variable step : St -> Lab -> option St.
  Variable tau : St -> list Lab.
  Variable eqb : St -> St -> bool.

  Definition mem_st (s : St) (l : list St) : bool := existsb (eqb s) l.

  Fixpoint dedupe (l : list St) : list St :=
    match l with
    | [] => []
    | x :: r => let r' := dedupe r in if mem_st x r' then r' else x :: r'
    end.

  Definition succs (s : St) : list St :=
    flat_map (fun l => match step s l with Some s' => [s'] | None => [] end) (tau s).

  (** all states reachable by internal steps *)
  Fixpoint closure (fuel : nat) (seen frontier : list St) : list St :=
    match fuel with
    | O => seen ++ frontier
    | S f =>
        let all := seen ++ frontier in
        let new := dedupe (filter (fun s => negb (mem_st s all)) (flat_map succs frontier)) in
        match new with
        | [] => all
        | _ => closure f all new
        end
    end.

  Definition after (fuel : nat) (states : list St) (l : Lab) : list St :=
    dedupe (flat_map (fun s => match step s l with Some s' => [s'] | None => [] end)
                     (closure fuel [] states)).

  Fixpoint run (fuel : nat) (states : list St) (tr : list Lab) : list St :=
    match tr with
    | [] => closure fuel [] states
    | l :: r => match after fuel states l with
                | [] => []
                | st' => run fuel st' r
                end
    end.
End Accept.

Definition list_eqb {A : Type} (eqb : A -> A -> bool) : list A -> list A -> bool :=
  fix go (a b : list A) : bool :=
    match a, b with
    | [], [] => true
    | x :: a', y :: b' => eqb x y && go a' b'
    | _, _ => false
    end.

Definition gor_eqb (a b : gor) : bool :=
  tm_eqb (gtm a) (gtm b) && pc_eqb (gpc a) (gpc b) && Bool.eqb (gclosed a) (gclosed b).

Definition pair_eqb (a b : nat * Z) : bool := Nat.eqb (fst a) (fst b) && Z.eqb (snd a) (snd b).

(** ghost histories are determined by the log, so they need not be compared *)
Definition cstate_eqb (a b : cstate) : bool :=
  list_eqb tm_eqb (cmap a) (cmap b) && list_eqb gor_eqb (cgors a) (cgors b)
  && list_eqb tm_eqb (csaved a) (csaved b).

Definition astate_eqb (a b : astate) : bool :=
  list_eqb tm_eqb (apending a) (apending b) && ids_eqb (afiring a) (afiring b).

Definition ataus (a : astate) : list alabel := map (fun e => AFire (tg e)) (apending a).

Record tcase : Type := mk_tcase {
  tc_impl : impl;
  tc_trace : list vis;
  tc_hang : bool;       (* the scenario did not finish (watchdog) *)
  tc_end : Z;           (* time of the final snapshot *)
  tc_grace : Z;         (* a timer due before [tc_end - tc_grace] must have fired *)
  tc_races : nat        (* data races reported by the race detector (summary case) *)
}.

Definition tc_fuel (c : tcase) : nat := 6 * List.length (tc_trace c) + 6.

(** never before request time + delay, and only for an accepted timer *)
Fixpoint fire_times_ok (now : Z) (dues : list (nat * Z)) (tr : list vis) : bool :=
  match tr with
  | [] => true
  | VTick t :: r => fire_times_ok t dues r
  | VAdd g _ d true :: r => fire_times_ok now ((g, now + d) :: dues) r
  | VReport g :: r =>
      match find (fun x => Nat.eqb (fst x) g) dues with
      | Some (_, due) => (due <=? now) && fire_times_ok now dues r
      | None => false
      end
  | _ :: r => fire_times_ok now dues r
  end.

Definition overdue (c : tcase) (e : tm) : bool := tdue e + tc_grace c <=? tc_end c.

Definition c_quiet (c : tcase) (s : cstate) : bool :=
  negb (existsb (overdue c) (cmap s))
  && negb (existsb (fun r => pc_eqb (gpc r) Claimed) (cgors s)).

Definition a_quiet (c : tcase) (a : astate) : bool :=
  negb (existsb (overdue c) (apending a))
  && match afiring a with [] => true | _ => false end.

Definition model_accepts (c : tcase) : bool :=
  existsb (c_quiet c)
    (run cstate clabel (cstep (tc_impl c)) taus cstate_eqb (tc_fuel c) [cinit]
         (map CVis (tc_trace c))).

Definition spec_accepts (c : tcase) : bool :=
  existsb (a_quiet c)
    (run astate alabel (astep (tc_impl c)) ataus astate_eqb (tc_fuel c) [ainit]
         (map AVis (tc_trace c))).

Definition tc_sane (c : tcase) : bool :=
  negb (tc_hang c) && Nat.eqb (tc_races c) 0 && fire_times_ok 0 [] (tc_trace c).

Definition c17_model_ok (c : tcase) : bool := tc_sane c && model_accepts c.
Definition c17_ok (c : tcase) : bool := tc_sane c && spec_accepts c.

Definition c17_mismatches (cases : list tcase) : list nat :=
  bad_indexes (fun c => negb (c17_model_ok c)) 0 cases.

Definition c17_violations (cases : list tcase) : list nat :=
  bad_indexes (fun c => negb (c17_ok c)) 0 cases.

(** the implementations before the repairs, for the witnesses of D16/D17 *)
Definition model_pre_accepts (c : tcase) : bool :=
  existsb (fun _ => true)
    (run cstate clabel (cstep_pre (tc_impl c)) taus cstate_eqb (tc_fuel c) [cinit]
         (map CVis (tc_trace c))).

(** cases in which a message was handed over and a request followed it *)
Fixpoint request_after_report (seen : bool) (tr : list vis) : bool :=
  match tr with
  | [] => false
  | VReport _ :: r => request_after_report true r
  | VAdd _ _ _ _ :: r | VRem _ _ :: r => seen || request_after_report seen r
  | _ :: r => request_after_report seen r
  end.

Definition c17_nontrivial (cases : list tcase) : nat :=
  count_true (fun c => request_after_report false (tc_trace c)) cases.
