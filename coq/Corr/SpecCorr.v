(** Correspondence and property oracles for C12: components specshare (many
    walkers over one compiled specification) and specswap (walkers against an
    UpdatableSpec whose version is swapped continuously). *)
From Sheens Require Export Corr.StepCorr.

Definition gw_eqb (a b : go_walk) : bool :=
  match a, b with
  | GWalk x ex, GWalk y ey =>
      list_eqb stride_eqb (w_strides x) (w_strides y)
      && list_eqb json_eqb (w_remaining x) (w_remaining y)
      && stop_eqb (w_stopped x) (w_stopped y) && Bool.eqb ex ey
  | _, _ => false
  end.

(** the implementation's walk is the model's (nothing is compared when a guard
    saw several candidates: the choice is documented as arbitrary) *)
Definition gw_is_model (s : aspec) (st : state) (msgs : list json) (limit : nat) (g : go_walk) : bool :=
  let '(w, amb) := awalk s (fun _ => false) limit st msgs in
  amb ||
  match g with
  | GWalk gw _ =>
      list_eqb stride_eqb (w_strides w) (w_strides gw)
      && list_eqb json_eqb (w_remaining w) (w_remaining gw)
      && stop_eqb (w_stopped w) (w_stopped gw)
  | _ => false
  end.
Definition model_ambiguous (s : aspec) (st : state) (msgs : list json) (limit : nat) : bool :=
  snd (awalk s (fun _ => false) limit st msgs).

(** * specshare *)

Record shwalk : Type := mk_shwalk {
  sw_st : state;
  sw_msgs : list json;
  sw_limit : nat;
  sw_alone : go_walk;        (* the walk made alone, before the concurrent phase *)
  sw_conc : go_walk;         (* the walk made beside the others (a deviating one if there was any) *)
  sw_stable : bool           (* the three concurrent walks agreed *)
}.
Record shcase : Type := mk_shcase {
  sh_spec : aspec;
  sh_walks : list shwalk;
  sh_intact : bool           (* deep snapshot of the specification unchanged *)
}.

Definition share_agrees (c : shcase) : bool :=
  forallb (fun w => gw_is_model (sh_spec c) (sw_st w) (sw_msgs w) (sw_limit w) (sw_conc w)
                    && gw_is_model (sh_spec c) (sw_st w) (sw_msgs w) (sw_limit w) (sw_alone w))
          (sh_walks c).
Definition share_mismatches (cases : list shcase) : list nat :=
  bad_indexes (fun c => negb (share_agrees c)) 0 cases.

(** the property (Go vs Go): beside the others every machine obtains exactly
    the result it obtains alone, and the specification is as before *)
Definition is_walk (g : go_walk) : bool := match g with GWalk _ _ => true | _ => false end.
Definition c12_share_ok (c : shcase) : bool :=
  sh_intact c &&
  forallb (fun w => is_walk (sw_conc w) && is_walk (sw_alone w) &&
                    (model_ambiguous (sh_spec c) (sw_st w) (sw_msgs w) (sw_limit w)
                     || (gw_eqb (sw_conc w) (sw_alone w) && sw_stable w)))
          (sh_walks c).
Definition c12_share_violations (cases : list shcase) : list nat :=
  bad_indexes (fun c => negb (c12_share_ok c)) 0 cases.
Definition c12_share_nontrivial (cases : list shcase) : nat :=
  count_true (fun c => existsb (fun w => match sw_conc w with
                                         | GWalk gw _ => Nat.leb 2 (List.length (w_strides gw))
                                         | _ => false
                                         end) (sh_walks c)) cases.

(** * specswap *)

Record swwalk : Type := mk_swwalk {
  sx_st : state;
  sx_msgs : list json;
  sx_limit : nat;
  sx_go_a : go_walk;         (* alone under version A *)
  sx_go_b : go_walk;         (* alone under version B *)
  sx_conc : list go_walk     (* the processing calls made while the versions were being swapped *)
}.
Record swcase : Type := mk_swcase {
  sx_a : aspec;
  sx_b : aspec;
  sx_walks : list swwalk
}.

Definition swap_agrees (c : swcase) : bool :=
  forallb (fun w =>
             gw_is_model (sx_a c) (sx_st w) (sx_msgs w) (sx_limit w) (sx_go_a w)
             && gw_is_model (sx_b c) (sx_st w) (sx_msgs w) (sx_limit w) (sx_go_b w)
             && forallb (fun g => gw_is_model (sx_a c) (sx_st w) (sx_msgs w) (sx_limit w) g
                                  || gw_is_model (sx_b c) (sx_st w) (sx_msgs w) (sx_limit w) g)
                        (sx_conc w))
          (sx_walks c).
Definition swap_mismatches (cases : list swcase) : list nat :=
  bad_indexes (fun c => negb (swap_agrees c)) 0 cases.

(** the property (Go vs Go): every processing call observed one complete
    version - its result is the walk under A or the walk under B *)
Definition c12_swap_ok (c : swcase) : bool :=
  forallb (fun w => forallb (fun g => is_walk g && (gw_eqb g (sx_go_a w) || gw_eqb g (sx_go_b w))) (sx_conc w)
                    && negb (match sx_conc w with [] => true | _ => false end))
          (sx_walks c).
Definition c12_swap_violations (cases : list swcase) : list nat :=
  bad_indexes (fun c => negb (c12_swap_ok c)) 0 cases.
Definition c12_swap_nontrivial (cases : list swcase) : nat :=
  count_true (fun c => existsb (fun w => negb (gw_eqb (sx_go_a w) (sx_go_b w))) (sx_walks c)) cases.
