(** Correspondence and property oracle for tools/expect (C19): what the
    generated cases_expect_*.v files evaluate.  A case is a session (the
    expected outputs of every step), the lines the harness made the
    subprocess emit during every step, and what Session.Run did. *)
From Sheens Require Export Corr.Base Spec.ExpectSpec.

Inductive go_verdict : Type :=
| GoPass                         (* Run returned nil *)
| GoFail                         (* Run returned an error *)
| GoHang                         (* Run had not returned long after the step's timeout *)
| GoCrash.                       (* Run brought the process down (a panic in one of its goroutines) *)

Record ecase : Type := mk_ecase {
  ec_steps : list (list output);
  ec_chunks : list (list line);
  ec_go : go_verdict
}.

(** abbreviations used by the generated files *)
Definition out := mk_output.
Definition jl (j : json) : line := Some j.
Definition noise : line := None.

Definition ec_model (c : ecase) : verdict := expect_run (ec_steps c) (ec_chunks c).

(** projected observable: pass or fail *)
Definition ec_agrees (c : ecase) : bool :=
  match ec_model c, ec_go c with
  | Pass, GoPass => true
  | Fail _, GoFail => true
  | _, _ => false
  end.

Definition ec_mismatches (cases : list ecase) : list nat :=
  bad_indexes (fun c => negb (ec_agrees c)) 0 cases.

(** the property on what the implementation did: a pass must be explained
    by a segmentation of the stream (and, said again independently, no
    expected message may have failed to arrive in time); neither
    hanging nor crashing is failing *)
Definition c19_case_ok (c : ecase) : bool :=
  match ec_go c with
  | GoPass => session_sound_nv_b (ec_steps c) (ec_chunks c)   (* implies session_sound_b; no step vacuous *)
              && negb (never_arrives_b (ec_steps c) (ec_chunks c))
  | GoFail => true
  | GoHang => false
  | GoCrash => false
  end.

Definition c19_violations (cases : list ecase) : list nat :=
  bad_indexes (fun c => negb (c19_case_ok c)) 0 cases.

(** evidence counters *)
Definition has_expected (c : ecase) : bool :=
  existsb (fun outs => existsb (fun o => negb (o_inv o)) outs) (ec_steps c).

Fixpoint has_repeat (ls : list line) : bool :=
  match ls with
  | [] => false
  | Some m :: r => existsb (fun l => match l with Some m' => json_eqb m m' | None => false end) r
                   || has_repeat r
  | None :: r => has_repeat r
  end.

(** passes whose soundness the oracle had to establish *)
Definition c19_nontrivial (cases : list ecase) : nat :=
  count_true (fun c => match ec_go c with GoPass => has_expected c | _ => false end) cases.

(** sessions in which an expected message does not arrive in time *)
Definition c19_never_arrives (cases : list ecase) : nat :=
  count_true (fun c => never_arrives_b (ec_steps c) (ec_chunks c)) cases.

(** ... and in which, moreover, some other message is repeated: the
    stand-in situation *)
Definition c19_stand_in (cases : list ecase) : nat :=
  count_true (fun c => unmet_anywhere_b (ec_steps c) (ec_chunks c)
                       && has_repeat (List.concat (ec_chunks c))) cases.
