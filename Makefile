# Framework build: everything from files on disk, offline.
GOENVV = GOFLAGS=-mod=mod GOPROXY=off GOSUMDB=off GOTOOLCHAIN=local
.PHONY: setup tools coq clean

setup: tools coq

REPO ?= $(if $(VERIF_REPO),$(VERIF_REPO),/repo)
tools:
	mkdir -p .work
	cp $(REPO)/go.sum harness/go.sum
	sed -i 's|^replace github.com/Comcast/sheens => .*|replace github.com/Comcast/sheens => $(REPO)|' harness/go.mod
	cd harness && $(GOENVV) go build -o ../.work/genconsts ./cmd/genconsts
	cd harness && $(GOENVV) go build -o ../.work/vharness .

coq: tools
	mkdir -p coq/Gen
	.work/genconsts coq/Gen/Consts.v $(REPO)
	cd coq && coq_makefile -f _CoqProject -o Makefile
	cd coq && timeout 3000 $(MAKE) -j16
	python3 checklib/forbidden.py coq

clean:
	rm -rf .work
	cd coq && (test -f Makefile && $(MAKE) clean || true)
	find coq -name '*.vo' -o -name '*.glob' -o -name '*.vok' -o -name '*.vos' -o -name '.*.aux' | xargs rm -f
