# Framework build: everything from files on disk, offline.
GOENVV = GOFLAGS=-mod=mod GOPROXY=off GOSUMDB=off GOTOOLCHAIN=local
.PHONY: setup tools coq props clean

setup: tools coq props

REPO ?= $(if $(VERIF_REPO),$(VERIF_REPO),/repo)
tools:
	mkdir -p .work
	cp $(REPO)/go.sum harness/go.sum
	sed -i 's|^replace github.com/Comcast/sheens => .*|replace github.com/Comcast/sheens => $(REPO)|' harness/go.mod
	cd harness && $(GOENVV) go build -o ../.work/genconsts ./cmd/genconsts
	cd harness && $(GOENVV) go build -o ../.work/vharness .

coq: tools
	mkdir -p coq/Gen
	.work/genconsts coq/Gen/Consts.v $(REPO)
	cd coq && coq_makefile -f _CoqProject -o Makefile
	cd coq && timeout 3000 $(MAKE) -j16
	python3 checklib/forbidden.py coq

# every property file must check against the freshly built development (the checks recompile their own again)
props: coq
	rm -rf .work/props && mkdir -p .work/props
	for f in coq/Properties/C*.v; do cp $$f .work/props/Properties_$$(basename $$f); done
	cd .work/props && ls Properties_*.v | xargs -P 16 -I{} sh -c 'timeout 1800 coqc -Q ../../coq Sheens {} > {}.log 2>&1 || (echo FAILED {}; tail -20 {}.log; exit 255)'

clean:
	rm -rf .work
	cd coq && (test -f Makefile && $(MAKE) clean || true)
	find coq -name '*.vo' -o -name '*.glob' -o -name '*.vok' -o -name '*.vos' -o -name '.*.aux' | xargs rm -f
